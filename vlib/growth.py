"""C18 growth monitor: child-side drivers and the count-based oracle inputs.

Run as ``python -m vlib.growth JOB.json OUT.json`` in a FRESH interpreter (one (pipeline, mode) per process).

What it does
* repeats one generated pipeline N times in one of four ways (reused Pipeline / fresh Pipeline per run /
  run-space launch through the in-process CLI / queue worker fed N jobs);
* after the runs named in ``points`` (e.g. 50 / 150 / 450) it takes a *sample* after ``gc.collect()``:
  sizes of every process-wide registry, ``len(gc.get_objects())``, channels / queued messages of live
  in-memory transports;
* attribution window ``points[1] -> points[2]``: at ``points[1]`` every live gc object is moved to the permanent
  generation (``gc.freeze()``), so at ``points[2]`` ``gc.get_objects()`` returns exactly the objects created since
  (no id-reuse ambiguity); they are un-frozen again before the total is counted, so nothing is retained by the
  monitor.  The new objects are partitioned by ``gc.get_referents`` closure (restricted to new objects) from
  the roots {component classes registered since, by creating factory; queued messages of long-lived
  transports; channel tables of long-lived transports}; new weak references follow their referent.
  ``residual = (n[2] - n[1]) - attributed`` is what no root explains (working-set replacement cancels out).
* the creating factory of every component class is recorded by a wrapper on ``_SemantivaComponentMeta.__init__``
  (call site = first frame in one of the class-factory modules); the record is ``id(cls) -> small int`` so the
  monitor itself adds no gc-tracked objects per class.

Counts only - never time.
"""
from __future__ import annotations

import copy
import gc
import json
import logging
import os
import sys
import threading
import weakref

FACTORY_MODULES = [
    (os.path.join("pipeline", "nodes", "_pipeline_node_factory.py"), "pipeline_node_factory"),
    (os.path.join("data_processors", "io_operation_factory.py"), "io_operation_factory"),
    (os.path.join("context_processors", "factory.py"), "context_processor_factory"),
    (os.path.join("data_processors", "data_slicer_factory.py"), "data_slicer_factory"),
    (os.path.join("data_processors", "parametric_sweep_factory.py"), "parametric_sweep_factory"),
    (os.path.join("workflows", "fitting_model.py"), "fitting_model_factory"),
]
SCRATCH_TOKEN = "/C18SCRATCH"

_SITES: list = []            # [(factory, function)]  (bounded: one entry per distinct call site)
_SITE_INDEX: dict = {}       # (factory, function) -> index
_SITE_BY_ID: dict = {}       # id(cls) -> index into _SITES   (ints only: adds no gc-tracked objects)
_COUNTERS = {"classes_created": 0, "pipeline_runs": 0}
_HOOKS: dict = {}


# --------------------------------------------------------------------------- monitors attached from outside
def _call_site() -> tuple:
    f = sys._getframe(2)
    depth = 0
    while f is not None and depth < 40:
        fn = f.f_code.co_filename
        for suffix, name in FACTORY_MODULES:
            if fn.endswith(suffix):
                func = f.f_code.co_name
                if func in ("_create_class", "<lambda>") and f.f_back is not None and f.f_back.f_code.co_filename == fn:
                    func = f.f_back.f_code.co_name
                return (name, func)
        f = f.f_back
        depth += 1
    return ("other", "-")


def install_class_site_recorder() -> None:
    from semantiva.core import semantiva_component as sc

    meta = sc._SemantivaComponentMeta
    orig = meta.__init__

    def __init__(cls, name, bases, attrs):  # noqa: N807
        orig(cls, name, bases, attrs)
        site = _call_site()
        idx = _SITE_INDEX.get(site)
        if idx is None:
            idx = _SITE_INDEX[site] = len(_SITES)
            _SITES.append(site)
        _SITE_BY_ID[id(cls)] = idx
        _COUNTERS["classes_created"] += 1

    meta.__init__ = __init__
    _HOOKS["meta_init"] = (meta, orig)


def install_run_counter(on_run_done=None) -> None:
    """Count completed Pipeline runs at the Pipeline boundary (all four modes go through Pipeline._process)."""
    from semantiva.pipeline import pipeline as pm

    orig = pm.Pipeline._process

    def _process(self, payload):
        try:
            out = orig(self, payload)
        except BaseException:
            _COUNTERS["pipeline_runs"] += 1      # a run that raised is a run too (the queue mode feeds failing jobs)
            raise
        _COUNTERS["pipeline_runs"] += 1
        if on_run_done is not None:
            on_run_done(_COUNTERS["pipeline_runs"])
        return out

    pm.Pipeline._process = _process
    _HOOKS["pipeline_process"] = (pm.Pipeline, orig)


# --------------------------------------------------------------------------- what is sampled
_CONTAINERS = None


def _is_container(v) -> bool:
    global _CONTAINERS
    if _CONTAINERS is None:
        import collections
        import weakref

        _CONTAINERS = (dict, list, set, frozenset, collections.deque, weakref.WeakSet, weakref.WeakValueDictionary,
                       weakref.WeakKeyDictionary)
    return isinstance(v, _CONTAINERS)


def _size(v) -> int:
    """Entries of a container plus the entries of containers directly inside it (dict of lists, list of sets, ...)."""
    for _ in range(3):
        try:
            inner = list(v.values()) if hasattr(v, "values") and callable(getattr(v, "values", None)) and not isinstance(v, (list, set, frozenset)) else list(v)
            return len(inner) + sum(len(x) for x in inner if _is_container(x))
        except RuntimeError:      # mutated by another thread during the listing: repeat
            continue
    return -1


def registry_sizes() -> dict:
    """Sizes of every process-wide table of the package, DISCOVERED rather than named: every container bound at module
    level or at class level anywhere under ``semantiva.`` (plus unbounded functools caches found there), and the logging
    tables.  Nothing here depends on a private name of the repository, so a rename cannot blind the monitor and a registry
    added by a change is watched from the start.  The component registry is taken from its public accessor."""
    from semantiva.core.semantiva_component import get_component_registry

    reg = get_component_registry()
    lg = logging.getLogger("Semantiva")
    loggers = [x for x in logging.root.manager.loggerDict.values() if isinstance(x, logging.Logger)]
    out = {
        "component_registry": sum(len(v) for v in reg.values()),
        "component_registry_categories": len(reg),
        "semantiva_logger_handlers": len(lg.handlers) + len(lg.filters),
        "logging_loggers": len(loggers),
        "logging_handlers_total": len(logging.root.handlers) + sum(len(x.handlers) for x in loggers),
    }
    try:
        import atexit

        out["atexit_callbacks"] = atexit._ncallbacks()
    except Exception:
        pass
    skip = {id(reg)}
    seen = set()

    def note(label, v):
        if id(v) in skip or id(v) in seen:
            return
        seen.add(id(v))
        if _is_container(v):
            out[label] = _size(v)
        else:
            ci = getattr(v, "cache_info", None)      # functools.lru_cache / cache wrappers: only unbounded ones can grow for ever
            if callable(ci):
                try:
                    info = ci()
                    if info.maxsize is None:
                        out[label + "<cache>"] = info.currsize
                except Exception:
                    pass

    extra_roots = ("yaml", "linecache", "warnings", "copyreg")       # process-wide tables outside the package that a run can feed
    for modname in sorted(sys.modules):
        if not (modname == "semantiva" or modname.startswith("semantiva.") or modname in extra_roots or modname.startswith("yaml.")):
            continue
        mod = sys.modules.get(modname)
        if mod is None:
            continue
        for name, val in sorted(vars(mod).items(), key=lambda kv: kv[0]):
            if name.startswith("__") and name != "__warningregistry__":
                continue
            if isinstance(val, type):
                if getattr(val, "__module__", None) != modname and not modname.startswith("yaml"):
                    continue
                for an, av in sorted(vars(val).items(), key=lambda kv: kv[0]):
                    if an.startswith("__") or an == "_abc_impl":
                        continue
                    if isinstance(av, (staticmethod, classmethod)):
                        av = av.__func__
                    note(f"{modname}.{val.__qualname__}.{an}", av)
            else:
                note(f"{modname}.{name}", val)
    return out


def component_registry_by_factory() -> dict:
    """{factory: number of registered classes}; static (import-time) classes are 'other'."""
    from semantiva.core.semantiva_component import get_component_registry

    out: dict = {}
    for lst in get_component_registry().values():
        for c in lst:
            idx = _SITE_BY_ID.get(id(c))
            fac = _SITES[idx][0] if idx is not None else "other"
            out[fac] = out.get(fac, 0) + 1
    return out


def _transports(objs) -> list:
    from semantiva.execution.transport.in_memory import InMemorySemantivaTransport

    # NOT isinstance(): the transport is an ABC, and ABCMeta caches one weak reference per distinct type it is asked
    # about - scanning the heap with isinstance would itself leave per-class residue in the transport's ABC cache.
    return [o for o in objs if InMemorySemantivaTransport in type(o).__mro__]


def channel_entries(t) -> list:
    """[(entry, deque, parts)] for every channel of an in-memory transport, found STRUCTURALLY: any dict held by the
    transport whose values are (or contain, as tuple members / attributes) a deque.  No private name is used."""
    import collections

    out = []
    for v in list(vars(t).values()):
        if not isinstance(v, dict):
            continue
        for ent in list(v.values()):
            if isinstance(ent, collections.deque):
                out.append((ent, ent, [ent]))
                continue
            parts = list(ent) if isinstance(ent, (tuple, list)) else list(vars(ent).values()) if hasattr(ent, "__dict__") else []
            dq = next((x for x in parts if isinstance(x, collections.deque)), None)
            if dq is not None:
                out.append((ent, dq, parts))
    return out


def transport_stats(objs) -> dict:
    ts = _transports(objs)
    ch = msgs = 0
    for t in ts:
        for _ent, q, _parts in channel_entries(t):
            ch += 1
            msgs += len(q)
    return {"live_transports": len(ts), "channels": ch, "queued_messages": msgs}


def stable_listing() -> list:
    """gc.get_objects() that is not inflated by another thread's transient objects.

    The queue master / worker threads keep polling while a sample is taken; one `list(self._queues.items())` scan in
    flight at that instant shows up as ~one tuple per channel (and the channel table only grows, F19).  With other
    threads alive the listing is repeated (a few ms apart, so the other thread leaves its loop) until the smallest
    count has been seen three times; that listing is used.  Counts decide, not time."""
    best = gc.get_objects()
    if threading.active_count() > 1:
        import time

        seen = 1
        for _ in range(40):
            time.sleep(0.003)
            objs = gc.get_objects()
            if len(objs) < len(best):
                best, seen = objs, 1
            elif len(objs) == len(best):
                seen += 1
                if seen >= 3:
                    break
            del objs
    return best


class Monitor:
    def __init__(self, points: list, attribute: bool = True, extend_max_objects=None):
        self.points = list(points)
        self.attribute = attribute
        self.extend_max_objects = extend_max_objects
        self.stop = False            # set after the third sample when the heap is too large to go on to a fourth
        self.samples: list = []      # JSON strings (untracked by gc)
        self.attribution = None
        self.frozen_at = None
        self.old_transport_ids: set = set()

    def maybe_sample(self, k: int) -> None:
        if k in self.points:
            self.sample(k)

    def sample(self, k: int) -> None:
        i = self.points.index(k)
        attribution_end = self.attribute and self.frozen_at is not None and i == 2
        gc.collect()
        gc.collect()
        new_ids = None
        if attribution_end:
            new = gc.get_objects()          # permanent generation is not listed: exactly the objects created since the freeze
            new_ids = set(map(id, new))
            del new
            gc.unfreeze()
            gc.collect()
            gc.collect()
        objs = stable_listing()
        n = len(objs)
        s = {"run": k, "objects": n, "registries": registry_sizes(), "registry_by_factory": component_registry_by_factory(),
             "transports": transport_stats(objs), "threads": threading.active_count(),
             "allocated_blocks": sys.getallocatedblocks(), "pipeline_runs_observed": _COUNTERS["pipeline_runs"]}
        if attribution_end:
            self.attribution = json.dumps(self._attribute(objs, new_ids))
        self.samples.append(json.dumps(s))
        if i == 2 and self.extend_max_objects is not None and n > self.extend_max_objects:
            self.stop = True
        if self.attribute and i == 1:
            self.old_transport_ids = {id(t) for t in _transports(objs)}
            del objs
            gc.collect()
            gc.freeze()
            self.frozen_at = k
        else:
            del objs

    # ------------------------------------------------------------------ attribution
    def _attribute(self, objs: list, new_ids: set) -> dict:
        from semantiva.core.semantiva_component import get_component_registry

        # new_ids was taken while every new object was alive, and nothing but this pass has allocated since: an id in it
        # that is still in objs is that same object (monitor-owned containers excluded)
        new_ids.difference_update({id(objs), id(new_ids), id(self.samples), id(self.__dict__)})
        new = [o for o in objs if id(o) in new_ids]
        newset = new_ids
        claimed: dict = {}

        def closure(seeds, label) -> int:
            stack = [s for s in seeds if id(s) in newset and id(s) not in claimed]
            cnt = 0
            while stack:
                o = stack.pop()
                if id(o) in claimed:
                    continue
                claimed[id(o)] = label
                cnt += 1
                for r in gc.get_referents(o):
                    if id(r) in newset and id(r) not in claimed:
                        stack.append(r)
            return cnt

        roots: dict = {}
        # (i) component classes registered since the freeze, by creating factory
        by_site: dict = {}
        for lst in get_component_registry().values():
            for c in lst:
                if id(c) in newset:
                    idx = _SITE_BY_ID.get(id(c))
                    site = _SITES[idx] if idx is not None else ("other", "-")
                    by_site.setdefault(site, []).append(c)
        for site in sorted(by_site):
            label = f"generated_classes:{site[0]}"
            r = roots.setdefault(label, {"classes": 0, "objects": 0, "functions": {}, "class_names": []})
            r["classes"] += len(by_site[site])
            r["functions"][site[1]] = r["functions"].get(site[1], 0) + len(by_site[site])
            for c in by_site[site][:200]:
                if c.__name__ not in r["class_names"] and len(r["class_names"]) < 6:
                    r["class_names"].append(c.__name__)
            r["objects"] += closure(by_site[site], label)
        # (ii) queued messages / (iii) channel tables of transports that were already alive at the freeze
        old_ts = [t for t in _transports(objs) if id(t) in self.old_transport_ids and id(t) not in newset]
        msgs = []
        for t in old_ts:
            for _ent, q, _parts in channel_entries(t):
                msgs.extend(q)
        roots["transport_messages"] = {"messages_new": sum(1 for m in msgs if id(m) in newset),
                                       "objects": closure(msgs, "transport_messages")}
        tables = []
        entry_ids = set()
        for t in old_ts:
            for ent, _q, parts in channel_entries(t):
                entry_ids.add(id(ent))
                tables.append(ent)
                tables.extend(parts)
        roots["transport_channel_table"] = {"entries_new": sum(1 for v in tables if id(v) in entry_ids and id(v) in newset),
                                            "objects": closure(tables, "transport_channel_table")}
        # new weak references follow their referent (subclass lists / ABC caches of old base classes)
        followed: dict = {}
        for o in new:
            if isinstance(o, weakref.ReferenceType) and id(o) not in claimed:
                try:
                    ref = o()
                except Exception:
                    ref = None
                if ref is not None and id(ref) in claimed:
                    lab = claimed[id(ref)]
                    # the weak reference and what only it holds (its callback: ABC caches attach one builtin each)
                    followed[lab] = followed.get(lab, 0) + closure([o], lab)
                del ref
        for lab, cnt in followed.items():
            roots[lab]["objects"] += cnt
            roots[lab]["via_weakrefs"] = cnt
        unclaimed = [o for o in new if id(o) not in claimed]
        types: dict = {}
        for o in unclaimed:
            tn = type(o).__module__ + "." + type(o).__qualname__
            types[tn] = types.get(tn, 0) + 1
        top = sorted(types.items(), key=lambda kv: (-kv[1], kv[0]))[:12]
        holders = _holders(unclaimed, newset, objs) if len(unclaimed) > 0 else []
        return {"new_objects": len(new), "attributed": len(claimed), "roots": roots,
                "unclaimed_new": len(unclaimed), "unclaimed_types": top, "unclaimed_holders": holders}


def _holders(unclaimed: list, newset: set, objs: list) -> list:
    """Diagnosis only: which OLD objects hold the unclaimed new ones (directly), as 'Type.attr' / 'Type[...]'."""
    uncl = {id(o) for o in unclaimed}
    out: dict = {}
    # owner description of dicts that are instance/class/module __dict__s
    for o in objs:
        if id(o) in newset:
            continue
        if isinstance(o, (list, dict, set, tuple)) or hasattr(o, "__dict__"):
            try:
                refs = gc.get_referents(o)
            except Exception:
                continue
            hit = sum(1 for r in refs if id(r) in uncl)
            if hit >= 3:
                out[id(o)] = (o, hit)
    desc = []
    for oid, (o, hit) in sorted(out.items(), key=lambda kv: -kv[1][1])[:6]:
        owner = ""
        if isinstance(o, (dict, list, set)):
            for p in gc.get_referrers(o):
                if p is out or p is objs or isinstance(p, (list, tuple)) and len(p) > 1000:
                    continue
                d = getattr(p, "__dict__", None)
                if d is o:
                    owner = f"__dict__ of {type(p).__qualname__}"
                    break
                if isinstance(d, dict):
                    for k, v in d.items():
                        if v is o:
                            owner = f"{type(p).__qualname__ if not isinstance(p, type) else p.__qualname__}.{k}"
                            break
                if isinstance(p, dict) and not owner:
                    for k, v in p.items():
                        if v is o and isinstance(k, str):
                            owner = f"dict[{k!r}]"
                            for pp in gc.get_referrers(p):      # whose __dict__ / namespace is that dict?
                                if getattr(pp, "__dict__", None) is p:
                                    nm = pp.__name__ if isinstance(pp, type) or type(pp).__name__ == "module" else type(pp).__qualname__
                                    owner = f"{nm}.{k}"
                                    break
                            break
                if owner:
                    break
        desc.append({"holder_type": type(o).__qualname__, "owner": owner, "direct_new_referents": hit})
    return desc


# --------------------------------------------------------------------------- drivers (the four ways of repeating a run)
def _subst(o, scratch):
    if isinstance(o, str):
        return o.replace(SCRATCH_TOKEN, scratch)
    if isinstance(o, list):
        return [_subst(x, scratch) for x in o]
    if isinstance(o, dict):
        return {k: _subst(v, scratch) for k, v in o.items()}
    return o


def _payload(case):
    from semantiva.context_processors.context_types import ContextType
    from semantiva.pipeline.payload import Payload
    from vlib.account import to_real_data

    return Payload(to_real_data(case["data"]), ContextType(copy.deepcopy(case["ctx"])))


def _trace_driver(job):
    if not job.get("trace"):
        return None
    from semantiva.trace.drivers.jsonl import JsonlTraceDriver

    return JsonlTraceDriver(os.path.join(job["scratch"], "trace.ser.jsonl"), detail=job.get("detail", "hash"))


def drive_reused(job, case, mon):
    from semantiva.pipeline.pipeline import Pipeline

    pipe = Pipeline(copy.deepcopy(case["nodes"]), trace=_trace_driver(job))
    for k in range(1, job["n"] + 1):
        pipe.process(_payload(case))
        mon.maybe_sample(k)
        if mon.stop:
            break
    return pipe


def drive_fresh(job, case, mon):
    from semantiva.pipeline.pipeline import Pipeline

    trace = _trace_driver(job)
    pipe = None
    for k in range(1, job["n"] + 1):
        pipe = Pipeline(copy.deepcopy(case["nodes"]), trace=trace)
        pipe.process(_payload(case))
        mon.maybe_sample(k)
        if mon.stop:
            break
    return pipe


class _StopLaunch(BaseException):
    """Raised by the run counter to end a run-space launch early (passes through the CLI's handlers)."""


def drive_runspace_cli(job, case, mon):
    """One `semantiva run` of a YAML whose run_space block expands to N runs (in-process CLI)."""
    import yaml
    from semantiva import cli

    n = job["n"]
    context = {"c18_run": list(range(n))}
    for key, v in case["ctx"].items():
        context[key] = [copy.deepcopy(v) for _ in range(n)]
    doc = {"extensions": ["semantiva-examples", "vlib.components"],
           "run_space": {"combine": "by_position", "max_runs": n + 1,
                         "blocks": [{"mode": "by_position", "context": context}]},
           "pipeline": {"nodes": case["nodes"]}}
    if job.get("trace"):
        doc["trace"] = {"driver": "jsonl", "output_path": os.path.join(job["scratch"], "trace.ser.jsonl"),
                        "options": {"detail": job.get("detail", "hash")}}
    path = os.path.join(job["scratch"], "launch.yaml")
    with open(path, "w", encoding="utf-8") as fh:
        yaml.dump(doc, fh, Dumper=_NoAliasDumper(yaml), sort_keys=False)
    del doc, context
    try:
        cli.main(["run", path, "--quiet"])
    except _StopLaunch:
        pass
    except SystemExit as exc:
        code = exc.code or 0
        if code != 0:
            raise RuntimeError(f"semantiva run exited with {code}")
    return None


def _NoAliasDumper(yaml):
    class D(yaml.SafeDumper):
        def ignore_aliases(self, data):
            return True

    return D


def drive_queue_worker(job, case, mon):
    """QueueSemantivaOrchestrator + one worker thread fed N jobs; quiescent (all futures resolved) at every sample."""
    from semantiva.context_processors.context_types import ContextType
    from semantiva.execution.executor.executor import SequentialSemantivaExecutor
    from semantiva.execution.job_queue.queue_orchestrator import QueueSemantivaOrchestrator
    from semantiva.execution.job_queue.worker import worker_loop
    from semantiva.execution.transport.in_memory import InMemorySemantivaTransport
    from semantiva.logger import Logger
    from vlib.account import to_real_data

    pylog = logging.getLogger("c18.queue")
    pylog.handlers = [logging.NullHandler()]
    pylog.propagate = False
    pylog.setLevel(logging.CRITICAL + 10)
    lg = Logger(logger=pylog)
    transport = InMemorySemantivaTransport()
    orch = QueueSemantivaOrchestrator(transport=transport, stop_event=None, logger=lg)
    master = threading.Thread(target=orch.run_forever, daemon=True, name="c18-master")
    stop = threading.Event()
    worker = threading.Thread(target=worker_loop, args=(0, transport, SequentialSemantivaExecutor(), stop, lg),
                              daemon=True, name="c18-worker")      # default poll interval, as deployed
    master.start()
    worker.start()
    depth = int(job.get("inflight", 16))
    done = 0
    # a site component file reached through a symlinked directory (<root>/current -> releases/r1), named in the registry
    # profile of some jobs: applying the same profile again and again must not leave anything behind per job
    import shutil
    import tempfile

    site_root = tempfile.mkdtemp(prefix="c18-site-")
    os.makedirs(os.path.join(site_root, "releases", "r1"))
    with open(os.path.join(site_root, "releases", "r1", "c18_site_components.py"), "w", encoding="utf-8") as fh:
        fh.write("from semantiva.data_processors import DataOperation\nfrom semantiva.examples.test_utils import FloatDataType\n\n\n"
                 "class C18SiteScale(DataOperation):\n    \"\"\"Site component: data * 2.\"\"\"\n\n    @classmethod\n    def input_data_type(cls):\n        return FloatDataType\n\n"
                 "    @classmethod\n    def output_data_type(cls):\n        return FloatDataType\n\n    def _process_logic(self, data):\n        return FloatDataType(data.data * 2)\n")
    os.symlink(os.path.join("releases", "r1"), os.path.join(site_root, "current"))
    site_file = os.path.join(site_root, "current", "c18_site_components.py")
    try:
        for target in job["points"] + ([job["n"]] if job["n"] not in job["points"] else []):
            pending = []
            submitted = done
            while done < target:
                while submitted < target and len(pending) < depth:
                    if submitted % 4 == 3:
                        # every fourth job fails in the worker (required parameter neither configured nor in the
                        # context): the error path must not leave anything behind either
                        fut = orch.enqueue([{"processor": "VSrc"}], data=None, context=ContextType({}), return_future=True)
                    elif submitted % 5 == 2:
                        # a job whose registry profile cannot be applied on the worker (a module that is not installed
                        # there): the worker warns and runs the job anyway - nothing may pile up per such job either
                        from semantiva.registry.bootstrap import RegistryProfile

                        fut = orch.enqueue(copy.deepcopy(case["nodes"]), data=to_real_data(case["data"]),
                                           context=ContextType(copy.deepcopy(case["ctx"])), return_future=True,
                                           registry_profile=RegistryProfile(load_defaults=True, modules=[], paths=[], extensions=["not_installed_ext_c18"]))
                    elif submitted % 5 == 4:
                        from semantiva.registry.bootstrap import RegistryProfile

                        fut = orch.enqueue(copy.deepcopy(case["nodes"]), data=to_real_data(case["data"]),
                                           context=ContextType(copy.deepcopy(case["ctx"])), return_future=True,
                                           registry_profile=RegistryProfile(load_defaults=True, modules=[], paths=[site_file], extensions=[]))
                    else:
                        fut = orch.enqueue(copy.deepcopy(case["nodes"]), data=to_real_data(case["data"]),
                                           context=ContextType(copy.deepcopy(case["ctx"])), return_future=True)
                    pending.append(fut)
                    submitted += 1
                fut = pending.pop(0)
                fut.exception(timeout=120)      # waits for completion, successful or exceptional
                done += 1
            del pending, fut
            mon.maybe_sample(target)
            if mon.stop:
                break
    finally:
        stop.set()
        orch.stop()
        master.join(timeout=5)
        worker.join(timeout=5)
        shutil.rmtree(site_root, ignore_errors=True)
    return None


def drive_relaunch_cli(job, case, mon):
    """N separate `semantiva run` LAUNCHES (in-process CLI), each of a one-run run space, always traced into one
    directory: what a launch leaves behind per launch (launch ids, emitters, drivers) shows here."""
    import yaml
    from semantiva import cli

    context = {"c18_run": [0]}
    for key, v in case["ctx"].items():
        context[key] = [copy.deepcopy(v)]
    doc = {"extensions": ["semantiva-examples", "vlib.components"],
           "run_space": {"combine": "by_position", "max_runs": 2, "blocks": [{"mode": "by_position", "context": context}]},
           "pipeline": {"nodes": case["nodes"]},
           "trace": {"driver": "jsonl", "output_path": os.path.join(job["scratch"], "traces"), "options": {"detail": job.get("detail", "hash")}}}
    os.makedirs(os.path.join(job["scratch"], "traces"), exist_ok=True)
    path = os.path.join(job["scratch"], "relaunch.yaml")
    with open(path, "w", encoding="utf-8") as fh:
        yaml.dump(doc, fh, Dumper=_NoAliasDumper(yaml), sort_keys=False)
    del doc, context
    import contextlib
    import io

    for k in range(1, job["n"] + 1):
        try:
            # the host captures each launch's console output in its own buffer (a notebook cell, a test, a web worker)
            with contextlib.redirect_stdout(io.StringIO()), contextlib.redirect_stderr(io.StringIO()):
                cli.main(["run", path, "--context", "c18_extra=2.5", "--set", "trace.options.detail=hash"] + (["--quiet"] if k % 2 else []))
        except SystemExit as exc:
            if (exc.code or 0) != 0:
                raise RuntimeError(f"semantiva run exited with {exc.code}")
        if k % 50 == 0:      # keep the trace directory small: the files are not what is measured
            for f in os.listdir(os.path.join(job["scratch"], "traces")):
                try:
                    os.unlink(os.path.join(job["scratch"], "traces", f))
                except OSError:
                    pass
        mon.maybe_sample(k)
        if mon.stop:
            break
    return None


DRIVERS = {"relaunch_cli": drive_relaunch_cli, "reused": drive_reused, "fresh": drive_fresh, "runspace_cli": drive_runspace_cli, "queue_worker": drive_queue_worker}


def main(argv) -> int:
    job_path, out_path = argv[1], argv[2]
    with open(job_path, encoding="utf-8") as fh:
        job = json.load(fh)
    from vlib import boot

    boot._paths()
    import semantiva  # noqa: F401

    install_class_site_recorder()
    boot.boot()
    from vlib import components

    components.REC.enabled = False      # the harness's own flight recorder would be per-run residue
    case = _subst(job["case"], job["scratch"])
    mon = Monitor(job["points"], attribute=job.get("attribute", True), extend_max_objects=job.get("extend_max_objects"))
    mode = job["mode"]

    def cli_run_done(k):
        mon.maybe_sample(k)
        if mon.stop:
            raise _StopLaunch()

    install_run_counter(cli_run_done if mode == "runspace_cli" else None)
    result = {"mode": mode, "ok": True}
    try:
        keep = DRIVERS[mode](job, case, mon)
        del keep
    except BaseException as exc:  # noqa: BLE001
        result["ok"] = False
        result["error"] = f"{type(exc).__name__}: {exc}"[:500]
        try:
            gc.unfreeze()
        except Exception:
            pass
    result["samples"] = [json.loads(s) for s in mon.samples]
    result["attribution"] = json.loads(mon.attribution) if mon.attribution else None
    result["counters"] = dict(_COUNTERS)
    try:
        import resource

        result["maxrss_mb"] = resource.getrusage(resource.RUSAGE_SELF).ru_maxrss // 1024
    except Exception:
        result["maxrss_mb"] = None
    result["sites"] = [list(s) for s in _SITES]
    with open(out_path, "w", encoding="utf-8") as fh:
        json.dump(result, fh)
    return 0


if __name__ == "__main__":
    rc = main(sys.argv)
    sys.stdout.flush()
    os._exit(rc)
