"""A third harness module, NOT registered as an extension: its classes have the SAME NAMES as those of
vlib.components_extra but other defaults (two plugins that both ship an `XSrcDefault`).  Referenced only in the fully
qualified ``module:Class`` form."""
from __future__ import annotations

from semantiva.data_io import DataSource
from semantiva.data_processors.data_processors import DataOperation
from semantiva.examples.test_utils import FloatDataType

from vlib.components import REC


class XSrcDefault(DataSource):
    """Outputs FloatDataType(value), default 9.5 (the namesake in components_extra defaults to 7.0)."""

    @classmethod
    def _get_data(cls, value: float = 9.5) -> FloatDataType:
        REC.add("vlib.components_extra2:XSrcDefault", None, {"value": value})
        return FloatDataType(float(value))

    @classmethod
    def output_data_type(cls):
        return FloatDataType


class XMulDefault(DataOperation):
    """data * factor, default 4.0 (the namesake in components_extra defaults to 3.0)."""

    @classmethod
    def input_data_type(cls):
        return FloatDataType

    @classmethod
    def output_data_type(cls):
        return FloatDataType

    def _process_logic(self, data, factor: float = 4.0):
        REC.add("vlib.components_extra2:XMulDefault", data, {"factor": factor})
        return FloatDataType(data.data * factor)
